import PGV.Spec.Lang
import PGV.Model.Lang
import PGV.Proofs.RuleText

/-! Model recognisers (transcriptions of the regular expressions) = independent recognisers of `Spec.Lang`. -/

namespace PGV.Proofs.LangEq
open PGV PGV.Model

theorem splitByte_not_mem (c : UInt8) (s : Bytes) (h : c ∉ s) : Bytes.splitByte c s = [s] := by
  induction s with
  | nil => rfl
  | cons x t ih =>
    have hx : (x == c) = false := by
      apply Bool.eq_false_iff.mpr; intro e; exact h (by simp [eq_of_beq e])
    rw [Bytes.splitByte, hx]
    simp [ih (fun hm => h (by simp [hm]))]

theorem splitByte_append (c : UInt8) (x y : Bytes) (h : c ∉ x) :
    Bytes.splitByte c (x ++ c :: y) = x :: Bytes.splitByte c y := by
  induction x with
  | nil => simp [Bytes.splitByte]
  | cons a t ih =>
    have ha : (a == c) = false := by
      apply Bool.eq_false_iff.mpr; intro e; exact h (by simp [eq_of_beq e])
    simp only [List.cons_append]
    rw [Bytes.splitByte, ha, ih (fun hm => h (by simp [hm]))]
    rfl

theorem splitByte_ne_nil (c : UInt8) (s : Bytes) : Bytes.splitByte c s ≠ [] := by
  induction s with
  | nil => simp [Bytes.splitByte]
  | cons x t ih =>
    rw [Bytes.splitByte]
    split
    · simp
    · split <;> simp

theorem splitByte_mem_len (c : UInt8) (s : Bytes) (h : c ∈ s) : 2 ≤ (Bytes.splitByte c s).length := by
  induction s with
  | nil => simp at h
  | cons x t ih =>
    rw [Bytes.splitByte]
    by_cases hx : (x == c) = true
    · simp only [hx, if_true, List.length_cons]
      have := splitByte_ne_nil c t
      cases hs : Bytes.splitByte c t with
      | nil => exact absurd hs this
      | cons _ _ => simp
    · have hx' : (x == c) = false := by simpa using hx
      have hm : c ∈ t := by
        simp only [List.mem_cons] at h
        rcases h with e | e
        · exact absurd (by simp [e]) hx
        · exact e
      have := ih hm
      simp only [hx', Bool.false_eq_true, if_false]
      cases hs : Bytes.splitByte c t with
      | nil => rw [hs] at this; simp at this
      | cons p ps => rw [hs] at this; simpa using this

/-- the first piece is the text before the first separator -/
theorem splitByte_head (c : UInt8) (s : Bytes) : (Bytes.splitByte c s).head? = some (s.takeWhile (· != c)) := by
  induction s with
  | nil => rfl
  | cons x t ih =>
    rw [Bytes.splitByte]
    by_cases hx : (x == c) = true
    · have : (x != c) = false := by simp [bne, hx]
      simp [hx, List.takeWhile, this]
    · have hx' : (x == c) = false := by simpa using hx
      simp only [hx', Bool.false_eq_true, if_false, List.takeWhile_cons, bne, Bool.not_false, if_true]
      cases hs : Bytes.splitByte c t with
      | nil => exact absurd hs (splitByte_ne_nil c t)
      | cons p ps =>
        rw [hs] at ih
        simp only [List.head?_cons, Option.some.injEq] at ih
        simp [ih, bne]

theorem takeWhile_drop' (p : UInt8 → Bool) (s : Bytes) : s.takeWhile p ++ s.dropWhile p = s :=
  List.takeWhile_append_dropWhile

theorem dropWhile_head (p : UInt8 → Bool) (s : Bytes) (x : UInt8) (t : Bytes) (h : s.dropWhile p = x :: t) : p x = false := by
  induction s with
  | nil => simp at h
  | cons a r ih =>
    simp only [List.dropWhile_cons] at h
    split at h
    · exact ih h
    · rename_i hp
      injection h with h1 _
      subst h1
      simpa using hp

theorem all_takeWhile (p : UInt8 → Bool) (s : Bytes) : (s.takeWhile p).all p = true := by
  induction s with
  | nil => rfl
  | cons a t ih =>
    simp only [List.takeWhile_cons]
    split
    · simp [*]
    · rfl

theorem not_mem_of_all (p : UInt8 → Bool) (s : Bytes) (c : UInt8) (hs : s.all p = true) (hc : p c = false) : c ∉ s := by
  intro hm
  have := List.all_eq_true.mp hs c hm
  rw [hc] at this; cases this

theorem isDigit_dot : Model.Lang.isDigit 46 = false := by decide

theorem floatTail_dot (b : Bool) (fp : Bytes) : Model.Lang.floatTail b (46 :: fp) = (!b && !fp.isEmpty && fp.all Model.Lang.isDigit) := rfl
theorem floatTail_nil (b : Bool) : Model.Lang.floatTail b [] = false := rfl
theorem floatTail_other (b : Bool) (x : UInt8) (fp : Bytes) (h : x ≠ 46) : Model.Lang.floatTail b (x :: fp) = false := by
  unfold Model.Lang.floatTail
  split
  · rename_i heq; injection heq with h1 _; exact absurd h1 h
  · rfl

/-- `^\d+\.\d+$` = digits `.` digits -/
theorem float_eq (s : Bytes) : Model.Lang.floatRe s = Spec.Lang.float s := by
  unfold Model.Lang.floatRe Spec.Lang.float
  have hsplit := takeWhile_drop' Model.Lang.isDigit s
  have hip := all_takeWhile Model.Lang.isDigit s
  generalize hi : s.takeWhile Model.Lang.isDigit = ip at hsplit hip
  cases hr : s.dropWhile Model.Lang.isDigit with
  | nil =>
    rw [hr] at hsplit
    simp only [List.append_nil] at hsplit
    subst hsplit
    have : (46 : UInt8) ∉ ip := not_mem_of_all _ ip 46 hip isDigit_dot
    rw [splitByte_not_mem 46 ip this, floatTail_nil]
  | cons x fp =>
    have hx := dropWhile_head _ s x fp hr
    rw [hr] at hsplit
    subst hsplit
    by_cases hx46 : x = 46
    · subst hx46
      have hnot : (46 : UInt8) ∉ ip := not_mem_of_all _ ip 46 hip isDigit_dot
      rw [splitByte_append 46 ip fp hnot, floatTail_dot]
      by_cases hfp : fp.all Model.Lang.isDigit = true
      · have : (46 : UInt8) ∉ fp := not_mem_of_all _ fp 46 hfp isDigit_dot
        rw [splitByte_not_mem 46 fp this]
        simp only [Spec.Lang.digits]
        have e1 : ip.all Spec.Lang.digit = true := hip
        have e2 : fp.all Spec.Lang.digit = true := hfp
        simp [hfp, e1, e2]
      · have hfp' : fp.all Model.Lang.isDigit = false := by simpa using hfp
        simp only [hfp', Bool.and_false]
        by_cases h46 : (46 : UInt8) ∈ fp
        · have := splitByte_mem_len 46 fp h46
          cases hs : Bytes.splitByte 46 fp with
          | nil => exact absurd hs (splitByte_ne_nil _ _)
          | cons p ps =>
            cases ps with
            | nil => rw [hs] at this; simp at this
            | cons q qs => simp
        · rw [splitByte_not_mem 46 fp h46]
          have e2 : fp.all Spec.Lang.digit = false := hfp'
          simp [Spec.Lang.digits, e2]
    · -- the first non-digit is not the dot: the first piece contains it
      rw [floatTail_other _ x fp hx46]
      have hhead := splitByte_head 46 (ip ++ x :: fp)
      have hx' : (x != 46) = true := by simpa using hx46
      have hipn : ∀ y ∈ ip, (y != 46) = true := by
        intro y hy
        have := List.all_eq_true.mp hip y hy
        simp only [bne_iff_ne, ne_eq]
        intro e; subst e; rw [isDigit_dot] at this; cases this
      have htw : (ip ++ x :: fp).takeWhile (· != 46) = ip ++ x :: fp.takeWhile (· != 46) := by
        rw [List.takeWhile_append_of_pos hipn]
        simp [List.takeWhile_cons, hx']
      rw [htw] at hhead
      cases hs : Bytes.splitByte 46 (ip ++ x :: fp) with
      | nil => exact absurd hs (splitByte_ne_nil _ _)
      | cons a rest =>
        rw [hs] at hhead
        simp only [List.head?_cons, Option.some.injEq] at hhead
        subst hhead
        cases rest with
        | nil => rfl
        | cons c rest2 =>
          cases rest2 with
          | cons _ _ => rfl
          | nil =>
            have : (ip ++ x :: List.takeWhile (fun x => x != 46) fp).all Spec.Lang.digit = false := by
              have hxd : Spec.Lang.digit x = false := hx
              simp [hxd]
            simp [Spec.Lang.digits, this]


theorem isDigit_eq (c : UInt8) : Model.Lang.isDigit c = Spec.Lang.digit c := rfl

/-- `^\d+$` -/
theorem int_eq (s : Bytes) : Model.Lang.intRe s = Spec.Lang.int s := by
  simp [Model.Lang.intRe, Spec.Lang.int, Spec.Lang.digits, isDigit_eq]
  rfl

theorem digit_of_range (c : UInt8) (h : (51 ≤ c && c ≤ 57) = true) : Spec.Lang.digit c = true := by
  simp only [Spec.Lang.digit, Bool.and_eq_true, decide_eq_true_eq] at h ⊢
  exact ⟨Nat.le_trans (by decide) h.1, h.2⟩

/-- `^1[3-9]\d{9}$`: 11 digits, first `1`, second in `3…9` -/
theorem phone_eq (s : Bytes) : Model.Lang.phoneRe s = Spec.Lang.phone s := by
  unfold Model.Lang.phoneRe Spec.Lang.phone
  split
  · rename_i c rest
    simp only [List.length_cons, List.all_cons, List.getElem?_cons_zero, List.getElem?_cons_succ]
    have hd : Spec.Lang.digit 49 = true := by decide
    by_cases hc : (51 ≤ c && c ≤ 57) = true
    · have hcd := digit_of_range c hc
      have e : (rest.length + 1 + 1 == 11) = (rest.length == 9) := by
        by_cases h : rest.length = 9 <;> simp [h] <;> omega
      simp only [hc, hd, hcd, Bool.true_and, e, beq_self_eq_true, Bool.and_true]
      rfl
    · have hc' : (51 ≤ c && c ≤ 57) = false := by simpa using hc
      simp [hc']
  · rename_i hne
    -- not of the shape `1 :: c :: rest`
    match s, hne with
    | [], _ => rfl
    | [a], _ => simp
    | a :: c :: rest, hne =>
      have ha : a ≠ 49 := fun e => hne c rest (by rw [e])
      simp [ha]


end PGV.Proofs.LangEq

namespace PGV.Proofs.LangEq
open PGV PGV.Model

theorem last_of_len (s : Bytes) (n : Nat) (h : s.length = n + 1) :
    ∃ c, s.drop n = [c] ∧ s.getLast? = some c ∧ s = s.take n ++ [c] := by
  have hd : (s.drop n).length = 1 := by simp [h]
  cases hdr : s.drop n with
  | nil => rw [hdr] at hd; simp at hd
  | cons c t =>
    cases t with
    | cons _ _ => rw [hdr] at hd; simp at hd
    | nil =>
      have hs : s = s.take n ++ [c] := by rw [← hdr, List.take_append_drop]
      refine ⟨c, rfl, ?_, hs⟩
      rw [hs]; simp

/-- 15 digits, 18 digits, or 17 digits and `X` / `x` -/
theorem idcard_eq (s : Bytes) : Model.Lang.idCardRe s = Spec.Lang.idcard s := by
  unfold Model.Lang.idCardRe Spec.Lang.idcard
  by_cases h18 : s.length = 18
  · obtain ⟨c, hdrop, hlast, hs⟩ := last_of_len s 17 h18
    have hall : ∀ p : UInt8 → Bool, s.all p = ((s.take 17).all p && p c) := by
      intro p; conv => lhs; rw [hs]
      simp
    have e15 : (s.length == 15) = false := by simp [h18]
    have e18 : (s.length == 18) = true := by simp [h18]
    rw [hlast, hdrop]
    simp only [e15, e18, Bool.false_and, Bool.false_or, Bool.true_and]
    rw [hall Model.Lang.isDigit, hall Spec.Lang.digit]
    have hd : Model.Lang.isDigit = Spec.Lang.digit := rfl
    rw [hd]
    cases (s.take 17).all Spec.Lang.digit <;> cases Spec.Lang.digit c <;> simp
  · have e18 : (s.length == 18) = false := by simpa using h18
    simp only [e18, Bool.false_and, Bool.or_false]
    rfl


end PGV.Proofs.LangEq
