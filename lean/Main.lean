import PGV.Driver.Common
import PGV.Model.TimeParse
import PGV.Driver.C14
import PGV.Driver.C09
import PGV.Driver.Walk
import PGV.Driver.C15
import PGV.Driver.C20
import PGV.Driver.Inject

open PGV PGV.Driver

def dispatch (line : String) : String :=
  match Sexp.parseLine line with
  | none => badRequest "parse"
  | some [] => badRequest "empty"
  | some (Sexp.atom op :: rest) =>
    let (args, impl) := splitAtBar rest
    let w : Option Walk.Resp :=
      match op with
      | "struct" | "var" | "map" | "url" => Walk.handle op args impl
      | _ => none
    if let some w := w then w.render else
    let r : Option Reply :=
      match op with
      | "split" | "parse" | "gen" | "rmset" | "rt" => C14.handle op args impl
      | "lru" => C09.handle op args impl
      | "explain-c" | "explain-raw" => C15.handle op args impl
      | "dump" => C20.handle op args impl
      | "inject" => PGV.Driver.Inject.handle op args impl
      | "timeparse" => (match args.map asBytes?, impl with
          -- the transcription of time.Parse + Format back, against the standard library itself
          | [some layout, some value], [Sexp.atom i] =>
            (match PGV.Model.TimeParse.parseStrict layout value with
             | none => some { model := Sexp.atom "none", agree := true, spec := none, scope := "out:layout-element" }
             | some b => some { model := Sexp.atom (if b then "t" else "f"), agree := (if b then "t" else "f") == i, spec := none })
          | _, _ => none)
      | "same" => (match args, impl with
          | [a], [c] => some { model := a, agree := a == c, spec := some (a == c) }
          | _, _ => none)
      | _ => none
    match r with
    | some r => r.render
    | none => badRequest ("op " ++ op)
  | some _ => badRequest "no-op"

partial def loop (h : IO.FS.Stream) (out : IO.FS.Stream) : IO Unit := do
  let line ← h.getLine
  if line.isEmpty then return ()
  out.putStrLn (dispatch line)
  out.flush
  loop h out

def main : IO Unit := do loop (← IO.getStdin) (← IO.getStdout)
